#!/usr/bin/env python3
"""regenerates MANIFEST.json from the table below (kept as code so the file never drifts from what is built)"""
import json, os
HERE = os.path.dirname(os.path.abspath(__file__))
BASE_CMD = "cd /repo && /venv/bin/python -m pytest -ra -q -p no:cacheprovider --timeout=900 --continue-on-collection-errors"

CHECKS = {}
NA = {}

BOUNDED = {
    'C05': 'generated modules (nesting <= 3, every binding statement form) against the compiler\'s symtable',
    'C06': 'generated class hierarchies executed under CPython (__mro__, vars), also across project modules and import forms',
    'C07': 'list_packages and small real directory trees against importlib',
    'C08': 'lint, and assist / location with the cursor at every position of a corpus (every construct of Python 3.12, texts that do not parse, import cycles)',
    'C10': 'one never-read binding per kind and scope against the exemption table',
    'C11': 'every binding position of a corpus against the text at that position',
    'C12': 'mark transparency at every cursor inside / at the end of every read and attribute access of a corpus',
    'C13': 'five layouts of every program of the whole-program stand-in',
    'C14': 'every size and integer boundary against a reference codec written from the specification',
    'C15': 'request sequences over the real codec against the in-process API',
    'C17': 'lint / assist / location with every set() iterating in four adversarial orders',
}


def claim(pid, text, note, technique, design_ref):
    if pid in BOUNDED:
        note = note + ' A BOUNDED stand-in checks the composed behaviour against an independent oracle (' + BOUNDED[pid] + \
            '); it is reported under `bounded` in evidence and never counted as proved (DESIGN.md 8.6).'
    CHECKS[pid] = dict(text=text, note=note, technique=technique, design_ref=design_ref)

exec(open(os.path.join(HERE, 'manifest_table.py')).read())

props = [json.loads(l)['id'] for l in open(os.path.join(HERE, 'properties.jsonl'))]
m = {
    "version": 1,
    "setup_cmd": "sh ./setup.sh",
    "hooks": {"guard": "SUPP_VERIF", "enable": "none: contracts are sidecars under /verif/contracts; no hook is compiled into /repo",
              "baseline_off_cmd": BASE_CMD, "source_commits": [], "add_only": True},
    "engines": [{"name": "pysym", "path": "pysym/", "serves_properties": sorted(CHECKS),
                 "kind_free_text": "verification-condition generator: executes the real functions of /repo/supp over z3 proxy values, "
                                   "enumerates all paths, cuts loops by sidecar invariants, replaces callees by their contracts, "
                                   "discharges each obligation with z3 (cvc5 / z3-new CLI on unknown)"}],
    "checks": [],
    "not_applicable": [],
    "notes": "contract-based deductive verification; see DESIGN.md. exit codes: 0 held, 1 violation, 2 undecided, 3 checker broken",
}
for pid in props:
    if pid in CHECKS:
        c = CHECKS[pid]
        m["checks"].append({
            "property_id": pid,
            "quick_cmd": "./check %s --tier quick" % pid,
            "thorough_cmd": "./check %s --tier thorough" % pid,
            "evidence_file": "evidence/%s.json" % pid,
            "replay_cmd_template": "./check %s --replay {path}" % pid,
            "engine": "pysym",
            "level_claimed": {"category": "proof", "text": c['text'], "design_ref": c['design_ref']},
            "level_note": c['note'],
            "technique": c['technique'],
        })
    else:
        m["not_applicable"].append({"property_id": pid, "reason": NA.get(pid, "not built yet: no obligation of this property is discharged by the committed machinery (DESIGN.md section 6); not replaced by another technique")})
json.dump(m, open(os.path.join(HERE, 'MANIFEST.json'), 'w'), indent=1)
print('claimed', sorted(CHECKS), 'n/a', len(m['not_applicable']))
