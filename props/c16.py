"""C16 — exactly one server under every interleaving; close and disconnect end it"""
import contracts.remote  # noqa
import contracts.server  # noqa

INFO = {'not_decided': ['"every call is answered" (liveness)', 'that the child process exits (Popen status)', 'launch-failure timing (time.sleep loop)',
                        'bytecode-level (intra-line) interleavings'],
        'stated_lemmas': ['thread-modular soundness: the rely transitions are exactly the effects of the same methods run by other threads'],
        'trusted': []}
import props._all  # noqa
