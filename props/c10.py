"""C10 — unused-name diagnostics follow the exemption rules exactly"""
import contracts.linter  # noqa

INFO = {'not_decided': ['programs that read `locals` (treated, as the code does, as reading every local of that scope)'],
        'stated_lemmas': ['each binding is enumerated exactly once by SourceScope.all_names (regions registered once by add_flow, bindings '
                          'inserted once by add_name)'], 'trusted': []}
import contracts.linter_bounded  # noqa
import props._all  # noqa
