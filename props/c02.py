"""C02 — the definition actually read is reported (superset direction of the per-construct obligations)"""
import contracts.nast_flow  # noqa
import contracts.linter  # noqa
import contracts.tables  # noqa
import contracts.names  # noqa
import contracts.memo  # noqa

INFO = {'not_decided': ['AugAssign is outside the stated grammar (x += a is not counted as a read of x)'],
        'stated_lemmas': ['composition lemma (DESIGN 2.2): per-construct contracts + table lemmas => names_at(read) is the set of '
                          'reaching definitions; spec vs CPython is trusted'], 'trusted': []}
import contracts.composition  # noqa
import props._all  # noqa
