"""C17 — deterministic output"""
import contracts.names  # noqa

INFO = {'not_decided': ['iteration order of sys.modules / os.listdir (environment, not code)'],
        'stated_lemmas': ['everything between the entry points and the first use of a set is deterministic (no id(), hash(), time, randomness: '
                          'mechanical scan), assist sorts its proposals, lint enumerates reads in AST order and bindings in region order'],
        'trusted': []}
import props._all  # noqa
