"""C09 — a long-lived project answers exactly like a fresh one (cache transparency)"""
import contracts.project  # noqa
import contracts.server  # noqa  (every server request runs inside check_changes)

INFO = {'not_decided': ['deleting files, removing __init__.py, shadowing an already-resolved module from an earlier root (outside the domain)'],
        'stated_lemmas': ['dependency-closure lemma: valid(m) <= not changed(m) and every module m\'s analysis consulted is valid and no name that '
                          'failed to resolve for m resolves now (frame scan: file-system reads only in project.py / module.py; cross-module '
                          'references only through get_nmodule)',
                          'Inv_cache and determinism of the analysis (C04, C17) => every request under check_changes equals the request on a fresh Project'],
        'trusted': []}
import props._all  # noqa
