"""C08 — the API is total: every text and cursor position gets an answer"""
import contracts.totality  # noqa
import contracts.linter  # noqa
import contracts.scopes  # noqa  (the scope-entry table is computed without raising)
import contracts.tables  # noqa
import contracts.memo  # noqa  (re-entrancy guard of EvalCtx.evaluate)

INFO = {'not_decided': ['termination (no decreases measure across memoised mutual recursion evaluate -> resolve -> _attrs -> bases -> evaluate)',
                        'whole-API totality: only the functions under contract are covered; the recursion-limit clause'],
        'stated_lemmas': [], 'trusted': ['ast.parse produces trees that conform to Python.asdl as documented in the node classes\' signatures']}
import props._all  # noqa
