"""C05 — names resolve in the scope CPython's compiler assigns them to"""
import contracts.scopes  # noqa
import contracts.nast_flow  # noqa  (which region decorators / defaults / bases are evaluated in)

INFO = {'not_decided': ['class-body reads of names the class itself binds (excluded by the property)'],
        'stated_lemmas': ['induction on the depth of the scope chain: each scope kind computes its step of the resolution rule from its parent\'s `names`'],
        'trusted': []}
import contracts.scopes_bounded  # noqa
import props._all  # noqa
