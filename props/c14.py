"""C14 — MessagePack codec: lossless, spec-conformant, rejects truncation"""
import contracts.umsgpack  # noqa: registers the harnesses
import contracts.msgpack_lemmas  # noqa

INFO = {
    'not_decided': ['float payloads are moved, not interpreted (bit pattern identity)',
                    'the Python 2 half of the module (_pack2, _unpackb2, _pack_oldspec_raw) is dead on this interpreter',
                    'compatibility mode (module global compatibility == True) is outside the contracts',
                    'maps whose keys Python cannot hold side by side or cannot hash (1 and 1.0 and True; an ext, a map or a list of maps as key): '
                    'the decoder refuses them by design (DuplicateKeyException / UnhashableKeyException; the contract of _unpack_map says exactly '
                    'when) - whether that counts against "accepts every spec-valid encoding" is not decided; duplicate list keys are accepted '
                    '(last wins); bytes after the first object are ignored by loads'],
    'stated_lemmas': [],
    'trusted': ['CPython int is mathematical; isinstance/None/bool dispatch executed by CPython itself'],
}
import props._all  # noqa
