"""C14 — MessagePack codec: lossless, spec-conformant, rejects truncation"""
import contracts.umsgpack  # noqa: registers the harnesses
import contracts.msgpack_lemmas  # noqa

INFO = {
    'not_decided': ['float payloads are moved, not interpreted (bit pattern identity)',
                    'the Python 2 half of the module (_pack2, _unpackb2, _pack_oldspec_raw) is dead on this interpreter',
                    'compatibility mode (module global compatibility == True) is outside the contracts'],
    'stated_lemmas': [],
    'trusted': ['CPython int is mathematical; isinstance/None/bool dispatch executed by CPython itself'],
}
import props._all  # noqa
