"""C03 — no phantom definitions; "possibly undefined" exact; never-bound names flagged (subset direction + unbound component)"""
import contracts.nast_flow  # noqa
import contracts.linter  # noqa
import contracts.tables  # noqa
import contracts.names  # noqa
import contracts.positions  # noqa

INFO = {'not_decided': ['reads of comprehension variables / except-clause names after their construct (outside the domain)'],
        'stated_lemmas': ['composition lemma (DESIGN 2.2)'], 'trusted': []}
import contracts.composition  # noqa
import props._all  # noqa
