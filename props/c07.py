"""C07 — module resolution agrees with Python's import system"""
import contracts.project  # noqa
import contracts.util_strings  # noqa  (split_pkg / join_pkg)
import contracts.totality  # noqa  (exception class of unresolvable names)

INFO = {'not_decided': ['namespace packages, a module file and a package directory of one name in one directory, deleted files (outside the domain)'],
        'stated_lemmas': [], 'trusted': []}
import props._all  # noqa
