"""C13 — the analysis depends on program structure, not on layout"""
import contracts.positions  # noqa
import contracts.nast_flow  # noqa  (every per-construct obligation is discharged with symbolic positions)
from contracts import tables  # noqa

INFO = {'not_decided': ['correspondence of diagnostics order (follows region registration order; not separately stated)'],
        'stated_lemmas': ['positions are consulted only through Location.__lt__, bisect, insort, get_expr_end, get_first_body_node_loc and np '
                          '(frame scan): an obligation discharged with symbolic positions constrained only by token order holds for every layout'],
        'trusted': []}
import contracts.composition  # noqa
import props._all  # noqa
