"""C11 — every reported position points at the identifier it names"""
import contracts.scope_text  # noqa

INFO = {'not_decided': ['non-ASCII lines', 'which occurrence is the binding one when the identifier occurs twice in the statement'],
        'stated_lemmas': [], 'trusted': []}
import props._all  # noqa
