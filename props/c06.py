"""C06 — attribute completion and definition follow Python's lookup order"""
import contracts.attrs  # noqa
import contracts.memo  # noqa  (re-entrancy guard of the evaluator)

INFO = {'not_decided': ['descriptors other than property / __get__-bearing classes, metaclasses, __getattr__, __slots__', 'diamond hierarchies (outside the domain)',
                        'that the evaluator produces the right kind of value for each expression form (dispatch of _evaluate): assumed'],
        'stated_lemmas': ['induction on the hierarchy depth: each base\'s table is its own class_lookup / inst_lookup'],
        'trusted': []}
import contracts.attrs_bounded  # noqa
import props._all  # noqa
