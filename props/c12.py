"""C12 — completion contract: exact prefix, clean sorted proposals, transparent cursor"""
import contracts.assistant  # noqa
import contracts.util_strings  # noqa
import contracts.marks  # noqa

INFO = {'not_decided': [], 'stated_lemmas': [], 'trusted': []}
import props._all  # noqa
