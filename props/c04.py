"""C04 — answers do not depend on which positions were queried before"""
import contracts.memo  # noqa
from contracts import tables  # noqa  (parent_names[one predecessor] etc. registered for C04)

INFO = {'not_decided': ['evaluation memos whose value depends on other files (that is C09)',
                        'EvalCtx.evaluate does not restore nodes/level when _evaluate raises (no caller continues with the same context)'],
        'stated_lemmas': ['Inv_memo holds initially and is preserved by every public entry point => every answer equals the history-free '
                          'specification value (view_end / view_at of the region graph)'],
        'trusted': []}
import props._all  # noqa
