"""C15 — remote calls are transparent and failures are isolated"""
import contracts.server  # noqa
import contracts.remote  # noqa
import contracts.umsgpack  # noqa  (loads(dumps(x)) == norm(x): the codec contracts and lemmas of C14)
import contracts.msgpack_lemmas  # noqa

INFO = {'not_decided': ['that the child process stays alive / is scheduled (OS)', 'payload size limits of the transport, timing',
                        'BaseException raised by an eval payload (SystemExit) is outside the contract of process()'],
        'stated_lemmas': ['induction on the request sequence with the channel assumption: reply k pairs with request k; a failing request leaves the '
                          'loop state and self.project unchanged'],
        'trusted': ['multiprocessing.connection: reliable, ordered, message-preserving duplex channel; recv_bytes raises EOFError when the peer is gone']}
import props._all  # noqa
