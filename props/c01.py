"""c01 — decided by the per-construct contracts on extract_visitor (contracts/nast_flow.py) and the table lemmas"""
import contracts.nast_flow  # noqa

INFO = {'not_decided': [], 'stated_lemmas': ['composition lemma (DESIGN 2.2)'], 'trusted': []}
