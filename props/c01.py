"""C01 — names bound at run time are visible"""
import contracts.nast_flow  # noqa
import contracts.linter  # noqa
import contracts.tables  # noqa

INFO = {'not_decided': ['match statements, PEP 695, except*, del, dynamic names (outside the domain)'],
        'stated_lemmas': ['composition lemma (DESIGN 2.2): per-construct contracts + table lemmas => names_at(read) is the set of reaching definitions',
                          'jump subsumption: states reachable through break/continue/return/raise are included in the jump-free state at identifier level'],
        'trusted': []}
import contracts.composition  # noqa
import props._all  # noqa
