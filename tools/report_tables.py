#!/usr/bin/env python3
"""Prints the markdown tables of DESIGN.md 8.2 (from evidence/*.json) and 8.5 (from seeded/*/meta.json), so that the report quotes measured
numbers.  usage: tools/report_tables.py [counts|seeds]"""
import glob, json, os, sys
HERE = os.path.dirname(os.path.dirname(os.path.abspath(__file__)))


def counts():
    print('| id | obligations (all discharged) | harnesses | back ends | bounded cases (not counted) | known findings | wall (quick) |')
    print('|----|----|----|----|----|----|----|')
    for i in range(1, 18):
        p = 'C%02d' % i
        d = json.load(open(os.path.join(HERE, 'evidence', p + '.json')))
        c = d['coverage']
        be = ', '.join('%s %d' % (k, v) for k, v in sorted(c.get('backends', {}).items()))
        kf = ', '.join(k['id'].split('-')[0] for k in c.get('known_findings_matched', [])) or '-'
        print('| %s | %d | %d | %s | %d | %s | %.0f s |' % (p, c['obligations'], len(c.get('functions_under_contract', [])), be,
                                                            c.get('bounded_cases_not_counted_as_proved', 0), kf, d['wall_s']))


def seeds():
    print('| seeded change | file | first run | reported by (obligation) |')
    print('|---|---|---|---|')
    n = first_caught = missed = undecided = 0
    for d in sorted(glob.glob(os.path.join(HERE, 'seeded', '*'))):
        m = json.load(open(os.path.join(d, 'meta.json')))
        name = os.path.basename(d)
        prop = m['property']
        first = (m.get('check_results') or {}).get(prop, {})
        fin = (m.get('check_results_final') or {}).get(prop) or first
        ob = (fin.get('first_failed_obligation') or fin.get('first_failed') or '').replace('FAILED obligation ', '').split('@')[0][:120]
        fr = m.get('first_result')
        if m.get('superseded'):
            ftxt = ('caught' if first.get('exit') == 1 and not fr else 'missed') + '; superseded by a repair (see meta)'
        elif fr:
            low = fr.lower()
            ftxt = ('caught for an incidental reason' if 'incidental' in low else '**undecided**' if 'undecided' in low.split(' - ')[0]
                    else '**missed**' if 'missed' in low.split(' - ')[0] else fr.split(' - ')[0].replace('first run: ', ''))
        else:
            ftxt = {0: '**missed**', 1: 'caught', 2: '**undecided**', 3: '**undecided**'}.get(first.get('exit'), '?')
            if m.get('check_results_final') and first.get('exit') == 1:
                ftxt = 'caught'
        n += 1
        first_caught += ftxt == 'caught' or ftxt.startswith('caught;')
        missed += 'missed' in ftxt
        undecided += 'undecided' in ftxt
        incidental = locals().get('incidental', 0) + ('incidental' in ftxt)
        files = m.get('files_touched') or ['']
        print('| %s | %s | %s | `%s` |' % (name, os.path.basename(files[0] if isinstance(files, list) else files), ftxt, ob))
    print()
    print('%d seeded changes: %d reported on the first run, %d missed, %d undecided, %d caught for an incidental reason' % (n, first_caught, missed, undecided, incidental))


if __name__ == '__main__':
    what = sys.argv[1] if len(sys.argv) > 1 else 'counts'
    {'counts': counts, 'seeds': seeds}[what]()
