#!/usr/bin/env python3
"""Re-run the property's check against every kept seeded change (seeded/<id>/patch.diff) and record the outcome in meta.json
(`check_results_final`).  Default: apply to /repo itself (git apply ... ; ./check ; git checkout -- .) as the task prescribes, one at a
time.  --scratch: use a scratch copy of /repo through SUPP_REPO instead (does not touch /repo; several can run at once)."""
import json, os, shutil, subprocess, sys, tempfile
HERE = os.path.dirname(os.path.dirname(os.path.abspath(__file__)))

def sh(cmd, **kw):
    return subprocess.run(cmd, shell=True, capture_output=True, text=True, **kw)

def main():
    scratch = '--scratch' in sys.argv
    only = [a for a in sys.argv[1:] if not a.startswith('--')]
    bad = 0
    for name in sorted(os.listdir(os.path.join(HERE, 'seeded'))):
        d = os.path.join(HERE, 'seeded', name)
        if only and not any(o in name for o in only):
            continue
        meta = json.load(open(os.path.join(d, 'meta.json')))
        prop = meta['property']
        patch = os.path.join(d, 'patch.diff')
        env = dict(os.environ)
        tmp = None
        if scratch:
            tmp = tempfile.mkdtemp(prefix='supp-seed-')
            repo = os.path.join(tmp, 'repo')
            shutil.copytree('/repo', repo, ignore=shutil.ignore_patterns('.git', '__pycache__', '*.egg-info'))
            ap = sh('cd %s && patch -p1 -s < %s' % (repo, patch))
            env['SUPP_REPO'] = repo
        else:
            if sh('git -C /repo status --porcelain').stdout.strip():
                print('refusing: /repo is not clean'); sys.exit(2)
            ap = sh('git -C /repo apply %s' % patch)
        try:
            if ap.returncode != 0:
                res = {'exit': None, 'note': 'patch no longer applies: %s' % (ap.stderr or ap.stdout)[:200]}
            else:
                r = sh('cd %s && SUPP_VERIF_KEEP_EVIDENCE=1 ./check %s' % (HERE, prop), env=env, timeout=3600)
                viol = [l for l in r.stdout.splitlines() if l.startswith('VIOLATION')]
                failed = [l for l in r.stdout.splitlines() if l.startswith('FAILED')]
                res = {'exit': r.returncode, 'violations': len(viol), 'reproduced_by_replay': sum('no-failing-input-found' not in l for l in viol),
                       'first_failed_obligation': failed[0][len('FAILED obligation '):260] if failed else None}
        finally:
            if scratch:
                shutil.rmtree(tmp, ignore_errors=True)
            else:
                sh('git -C /repo checkout -- .')
        caught = res.get('exit') == 1 and bool(res.get('violations'))
        if meta.get('superseded'):
            # a change that no longer breaks the property on the repaired tree (see meta['superseded']): not expected to be reported
            print('%-45s SKIP superseded exit=%s' % (name, res.get('exit')))
            continue
        if '--no-write' not in sys.argv:
            meta['check_results_final'] = {prop: res}
            meta['caught_final'] = caught
            json.dump(meta, open(os.path.join(d, 'meta.json'), 'w'), indent=1)
        print('%-45s %s exit=%s violations=%s %s' % (name, 'CAUGHT' if caught else ('SKIP patch no longer applies' if res.get('exit') is None else 'MISSED'),
                                                     res.get('exit'), res.get('violations'), (res.get('first_failed_obligation') or res.get('note') or '')[:110]))
        bad += 0 if caught or res.get('exit') is None else 1
    sys.exit(1 if bad else 0)
main()
