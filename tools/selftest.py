#!/usr/bin/env python3
"""Mutation self-test: applies each property-breaking edit of mutants/<prop>.json to a scratch copy
of /repo (under $TMPDIR, removed afterwards), runs the property's check against it (SUPP_REPO) and
expects exit 1 with a VIOLATION line; also checks that the existing suite still passes with the edit
when --suite is given.  usage: tools/selftest.py C14 [--suite] [--only name]"""
import json, os, shutil, subprocess, sys, tempfile
HERE = os.path.dirname(os.path.dirname(os.path.abspath(__file__)))

def main():
    prop = sys.argv[1]
    suite = '--suite' in sys.argv
    only = sys.argv[sys.argv.index('--only') + 1] if '--only' in sys.argv else None
    muts = json.load(open(os.path.join(HERE, 'mutants', prop.lower() + '.json')))
    bad = 0
    for m in muts:
        if only and only not in m['name']:
            continue
        d = tempfile.mkdtemp(prefix='supp-mut-')
        try:
            repo = os.path.join(d, 'repo')
            shutil.copytree('/repo', repo, ignore=shutil.ignore_patterns('.git', '__pycache__', '*.egg-info'))
            p = os.path.join(repo, m['file'])
            s = open(p).read()
            if s.count(m['old']) != 1:
                print('%-40s SKIP: pattern occurs %d times' % (m['name'], s.count(m['old'])))
                bad += 1
                continue
            open(p, 'w').write(s.replace(m['old'], m['new']))
            st = ''
            if suite:
                r = subprocess.run(['/venv/bin/python', '-m', 'pytest', '-q', '-x', '-p', 'no:cacheprovider', '--timeout=300'],
                                   cwd=repo, capture_output=True, text=True, timeout=900)
                st = 'suite:%s ' % ('pass' if r.returncode == 0 else 'FAIL')
                # tests/test_remote.py starts a server it never closes; with some mutants that server never exits on its own
                subprocess.run(['pkill', '-f', os.path.join(repo, 'supp', 'server.py')])
            cmd = [os.path.join(HERE, 'check'), prop] + (['--only', m['harness']] if m.get('harness') and '--fast' in sys.argv else [])
            r = subprocess.run(cmd, cwd=HERE, capture_output=True, text=True, env=dict(os.environ, SUPP_REPO=repo), timeout=3600)
            viol = [l for l in r.stdout.splitlines() if l.startswith('VIOLATION')]
            failed = [l for l in r.stdout.splitlines() if l.startswith('FAILED')]
            ok = r.returncode == 1 and viol
            if not ok:
                bad += 1
            print('%-40s %s%s exit=%d violations=%d %s' % (m['name'], st, 'CAUGHT' if ok else 'MISSED', r.returncode, len(viol),
                                                           (failed[0][:150] if failed else r.stdout.strip().splitlines()[-1][:150])))
        finally:
            shutil.rmtree(d, ignore_errors=True)
    sys.exit(1 if bad else 0)

main()
