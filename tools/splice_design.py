#!/usr/bin/env python3
"""Re-writes the two measured tables of DESIGN.md section 8 from their sources: the counts table of 8.2 from evidence/*.json and the table of
seeded changes of 8.5 (with the sentence that counts them) from seeded/*/meta.json.  Everything else in DESIGN.md is left as written.
usage: tools/splice_design.py"""
import io, os, re, sys
from contextlib import redirect_stdout
HERE = os.path.dirname(os.path.dirname(os.path.abspath(__file__)))
sys.path.insert(0, os.path.join(HERE, 'tools'))
import report_tables  # noqa


def out_of(fn):
    buf = io.StringIO()
    with redirect_stdout(buf):
        fn()
    return buf.getvalue().rstrip('\n')


def replace_table(text, header_start, new, upto=None):
    i = text.index(header_start)
    lines = text[i:].split('\n')
    n = 0
    while n < len(lines) and lines[n].startswith('|'):
        n += 1
    old = '\n'.join(lines[:n])
    return text[:i] + new + text[i + len(old):]


def main():
    p = os.path.join(HERE, 'DESIGN.md')
    text = open(p).read()
    text = replace_table(text, '| id | obligations (all discharged) |', out_of(report_tables.counts))
    seeds = out_of(report_tables.seeds)
    table, summary = seeds.rsplit('\n\n', 1)
    text = replace_table(text, '| seeded change | file | first run |', table)
    text, k = re.subn(r'\d+ seeded changes: \d+ reported on the first run, \d+ missed, \d+ undecided, \d+ caught for an incidental reason', summary, text)
    if k != 1:
        sys.exit('the sentence that counts the seeded changes was found %d times' % k)
    open(p, 'w').write(text)
    print(summary)


if __name__ == '__main__':
    main()
