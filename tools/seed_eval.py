#!/usr/bin/env python3
"""Evaluate seeded property-breaking changes produced by independent sub-agents.
usage: tools/seed_eval.py <prop> <dir-with-seeds> [--keep]
For each <dir>/<name>/{patch.diff,demo.py,notes.json}:
  1. confirm in a scratch worktree of /repo (removed afterwards): patch applies, suite passes with it, demo exits 1 with it and 0 without;
  2. apply to /repo, run ./check <prop> (and every other claimed property with --all), undo with `git checkout -- .`;
  3. with --keep: copy to /verif/seeded/<prop>-<name>/ with meta.json."""
import json, os, shutil, subprocess, sys, tempfile
HERE = os.path.dirname(os.path.dirname(os.path.abspath(__file__)))

def sh(cmd, **kw):
    return subprocess.run(cmd, shell=True, capture_output=True, text=True, **kw)

def main():
    prop, src = sys.argv[1], sys.argv[2]
    keep = '--keep' in sys.argv
    allp = '--all' in sys.argv
    claimed = [c['property_id'] for c in json.load(open(os.path.join(HERE, 'MANIFEST.json')))['checks']]
    for name in sorted(os.listdir(src)):
        d = os.path.join(src, name)
        patch, demo = os.path.join(d, 'patch.diff'), os.path.join(d, 'demo.py')
        if not (os.path.exists(patch) and os.path.exists(demo)):
            continue
        wt = tempfile.mkdtemp(prefix='supp-seed-')
        os.rmdir(wt)
        res = {'name': name, 'property': prop}
        try:
            sh('git -C /repo worktree add -q %s HEAD' % wt)
            r0 = sh('PYTHONPATH=%s /venv/bin/python %s' % (wt, demo), timeout=600)
            ap = sh('git -C %s apply %s' % (wt, patch))
            if ap.returncode != 0:
                res['confirmed'] = 'patch does not apply to /repo HEAD: %s' % ap.stderr[:200]
                print(json.dumps(res)); continue
            suite = sh('cd %s && timeout 900 /venv/bin/python -m pytest -q -p no:cacheprovider 2>&1 | tail -1' % wt)
            r1 = sh('PYTHONPATH=%s /venv/bin/python %s' % (wt, demo), timeout=600)
            sh("pkill -f '%s/supp/server.py'" % wt)      # servers left behind by the suite / the demo on the changed tree
            res.update(demo_without=r0.returncode, demo_with=r1.returncode, suite=suite.stdout.strip(),
                       demo_output=(r1.stdout + r1.stderr)[-400:])
            import re
            res['confirmed'] = r0.returncode == 0 and r1.returncode == 1 and 'passed' in suite.stdout and not re.search(r'\d+ (failed|error)', suite.stdout)
        finally:
            sh('git -C /repo worktree remove --force %s' % wt)
            shutil.rmtree(wt, ignore_errors=True)
        checks = {}
        if '--scratch' in sys.argv:
            # same check, pointed at a scratch worktree that carries the change (SUPP_REPO); /repo is not touched
            wt2 = tempfile.mkdtemp(prefix='supp-seed-')
            os.rmdir(wt2)
            try:
                sh('git -C /repo worktree add -q %s HEAD' % wt2)
                sh('git -C %s apply %s' % (wt2, patch))
                for p in ([prop] + [c for c in claimed if c != prop] if allp else [prop]):
                    r = sh('cd %s && ./check %s' % (HERE, p), timeout=3600, env=dict(os.environ, SUPP_REPO=wt2))
                    viol = [l for l in r.stdout.splitlines() if l.startswith('VIOLATION')]
                    failed = [l for l in r.stdout.splitlines() if l.startswith('FAILED')]
                    checks[p] = {'exit': r.returncode, 'violations': len(viol), 'first_failed': failed[0][:220] if failed else None,
                                 'reproduced': sum('no-failing-input-found' not in l for l in viol), 'mode': 'scratch worktree (SUPP_REPO)'}
            finally:
                sh('git -C /repo worktree remove --force %s' % wt2)
                shutil.rmtree(wt2, ignore_errors=True)
        else:
            # against /repo itself
            st = sh('git -C /repo status --porcelain')
            if st.stdout.strip():
                print('refusing: /repo is not clean'); sys.exit(2)
            ap = sh('git -C /repo apply %s' % patch)
            try:
                for p in ([prop] + [c for c in claimed if c != prop] if allp else [prop]):
                    r = sh('cd %s && SUPP_VERIF_KEEP_EVIDENCE=1 ./check %s' % (HERE, p), timeout=3600)
                    viol = [l for l in r.stdout.splitlines() if l.startswith('VIOLATION')]
                    failed = [l for l in r.stdout.splitlines() if l.startswith('FAILED')]
                    checks[p] = {'exit': r.returncode, 'violations': len(viol), 'first_failed': failed[0][:220] if failed else None,
                                 'reproduced': sum('no-failing-input-found' not in l for l in viol)}
            finally:
                sh('git -C /repo checkout -- .')
                sh('git -C /repo clean -fdq supp tests')
        res['checks'] = checks
        res['caught_by'] = [p for p, c in checks.items() if c['exit'] == 1 and c['violations']]
        print(json.dumps(res, indent=1))
        if keep and res.get('confirmed') is True:
            dst = os.path.join(HERE, 'seeded', '%s-%s' % (prop, name))
            os.makedirs(dst, exist_ok=True)
            shutil.copy(patch, dst); shutil.copy(demo, dst)
            notes = json.load(open(os.path.join(d, 'notes.json'))) if os.path.exists(os.path.join(d, 'notes.json')) else {}
            meta = {'property': prop, 'breaks': notes.get('summary'), 'needs_to_manifest': notes.get('needs_to_manifest'),
                    'files_touched': notes.get('files_touched'),
                    'confirmed': {'suite_with_change': res['suite'], 'demo_exit_with_change': res['demo_with'], 'demo_exit_without': res['demo_without'],
                                  'how': 'scratch git worktree of /repo HEAD; git apply patch.diff; pytest; demo.py; removed afterwards'},
                    'check_results': checks, 'caught_by': res['caught_by'], 'origin': 'independent sub-agent given only the property text'}
            json.dump(meta, open(os.path.join(dst, 'meta.json'), 'w'), indent=1)
main()
