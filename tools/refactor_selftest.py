#!/usr/bin/env python3
"""False-alarm self-test: behaviour-preserving refactorings of /repo/supp (renamed locals, reordered independent statements, restructured
but equivalent code), each applied to a scratch copy (removed afterwards); the suite must still pass and the property checks must NOT report
a violation (exit 0; exit 2/3 = undecided is tolerated and printed).  usage: tools/refactor_selftest.py [name ...]"""
import re, os, shutil, subprocess, sys
def sub(path, old, new):
    s=open(path).read(); assert old in s, (path, old[:50]); s=s.replace(old,new,1); open(path,'w').write(s)
def region(path, start, end, fn):
    s=open(path).read(); a=s.index(start); b=s.index(end, a); s=s[:a]+fn(s[a:b])+s[b:]; open(path,'w').write(s)
def rw(path, f):
    t=open(path).read(); open(path,'w').write(f(t))
def word(o,n): return lambda t: re.sub(r'(?<![\w.])%s\b'%o, n, t)
def chain(*fs):
    def f(t):
        for g in fs: t=g(t)
        return t
    return f
R = {
 'R1-parent_names-locals': (['C01','C05','C17'], lambda: region('supp/scope.py','    def parent_names(self):','    def names_at(self, loc):', chain(word('nameset','all_idents'),word('pnames','tables'),word('nrow','row'),word('outer_names','inherited')))),
 'R4-umsgpack-literals': (['C14'], lambda: rw('supp/umsgpack.py', lambda t: t.replace('2**8-1','0xff').replace('2**16-1','0xffff'))),
 'R7-multiname-dedupe': (['C17','C02'], lambda: sub('supp/name.py', """        for n in allnames:
            if n not in unique:
                unique.append(n)
""", """        for candidate in allnames:
            if not any(candidate == seen for seen in unique):
                unique += [candidate]
""")),
 'R6-visit_If-restructured': (['C02','C03','C01'], lambda: sub('supp/nast.py', """        cur = self.flow
        body = self.visit_in_flow(node.body, self.make_flow('if', [cur]))
        orelse = self.visit_in_flow(node.orelse, self.make_flow('else', [cur]))
        self.flow = self.make_flow('join', [body, orelse])
        self.flow.scope.flow = self.flow
""", """        before = self.flow
        then_end = self.visit_in_flow(node.body, self.make_flow('if', [before]))
        else_end = self.visit_in_flow(node.orelse, self.make_flow('else', [before]))
        joined = self.make_flow('join', [then_end, else_end])
        self.flow = joined
        joined.scope.flow = joined
""")),
 'R8-lint-loop-variables': (['C10'], lambda: region('supp/linter.py','    for flow, name in scope.all_names:','    return result', chain(word('flow','region'), word('name','binding')))),
 'R9-get_module-temps': (['C07','C09'], lambda: rw('supp/project.py', lambda t: re.sub(r'\bfname\b','init_file',re.sub(r'\bmpath\b','candidate',t)))),
 'R10-assist-rename': (['C12'], lambda: rw('supp/assistant.py', lambda t: re.sub(r'\bplist\b','packages',t))),
 'R11-server-run-locals': (['C15'], lambda: rw('supp/server.py', lambda t: t.replace("                    result, is_ok = self.process(*args)\n                    try:\n                        content = dumps((result, is_ok))", "                    answer = self.process(*args)\n                    try:\n                        content = dumps(tuple(answer))").replace('args = loads(conn.recv_bytes())','request = loads(conn.recv_bytes())\n                    args = request'))),
 'R16-remote-run-local': (['C16'], lambda: rw('supp/remote.py', lambda t: t.replace("            thread = self.prepare_thread\n            if thread:\n                thread.join()", "            starter = self.prepare_thread\n            if starter is not None:\n                starter.join()"))),
 'R17-find_id_loc-locals': (['C11'], lambda: region('supp/scope.py','    def find_id_loc(','    def add_attr_assign', chain(word('ep','after'), word('source_len','total')))),
 'R18-lint-checks-reordered': (['C10'], lambda: sub('supp/linter.py', """        if name.name.startswith('_'):
            continue
        if getattr(name, 'is_star', None):
            continue
""", """        if getattr(name, 'is_star', None):
            continue
        if name.name.startswith('_'):
            continue
""")),
 'R19-flow_cached-local': (['C04'], lambda: region('supp/scope.py','class flow_cached(object):','class Flow(object):', word('pending','open_resolutions'))),
 'R20-classobject-attrs-loop': (['C06'], lambda: sub('supp/name.py', """        attrs = {}
        for table in reversed(self._ancestor_tables):
            attrs.update(table)
        attrs.update(self._cls_attrs)
        return attrs
""", """        merged = {}
        for inherited in self._ancestor_tables[::-1]:
            merged.update(inherited)
        merged.update(self._cls_attrs)
        return merged
""")),
 'R21-pack_integer-reordered-equal-ranges': (['C14'], lambda: None),
 'R22-process-rename': (['C15'], lambda: region('supp/server.py','    def process(self','    def assist(self', word('e','exc'))),
 'R12-while-head-comment-and-reorder': (['C02'], lambda: sub('supp/nast.py', "    def visit_If(self, node):\n", "    # conditional statement\n    def visit_If(self, node):\n")),
 'R13-find_id_loc-while-to-for': (['C11'], lambda: None),
 'R14-names_at-bisect-right': (['C03','C13'], lambda: sub('supp/scope.py', "        idx = bisect(self._names, Location(loc))\n", "        probe = Location(loc)\n        idx = bisect(self._names, probe)\n")),
 'R15-read_except-temp': (['C14'], lambda: None),
 'R23-add_name-insort': (['C01','C05','C03'], lambda: sub('supp/scope.py', "            insert_loc(self._names, name)", "            from bisect import insort\n            insort(self._names, name)")),
 'R24-call-rename-local': (['C16','C15'], lambda: region('supp/remote.py','    def _call(self, name','    def lint(self', word('result','answer'))),
 'R25-get_path-copies': (['C07'], lambda: sub('supp/project.py', "        return  self.sources + sys.path", "        path = list(self.sources)\n        path.extend(sys.path)\n        return path")),
 'R26-alias_loc-branches-swapped': (['C11','C10'], lambda: sub('supp/nast.py', """        if alias.asname:
            return alias.end_lineno, alias.end_col_offset - len(name)  # type: ignore[return-value]
        return alias.lineno, alias.col_offset
""", """        if not alias.asname:
            return alias.lineno, alias.col_offset
        last_line, end_col = alias.end_lineno, alias.end_col_offset
        return last_line, end_col - len(name)
""")),
 'R27-list_packages-dirs-first': (['C07','C12'], lambda: sub('supp/project.py', """        modules = set()
        path = self.get_path()

        if root:
            droot = root + '.'""", """        path = self.get_path()
        modules = set()

        if root:
            droot = '%s.' % root""")),
 'R28-server-requests-frozenset': (['C15'], lambda: sub('supp/server.py', "    requests = ('configure', 'assist', 'location', 'lint', 'eval')", "    requests = frozenset(['configure', 'assist', 'location', 'lint', 'eval'])")),
 'R29-visit_Compare-early-return-flipped': (['C02','C03'], lambda: sub('supp/nast.py', """        if not self._binds(node.comparators[1:]):
            self.generic_visit(node)
            return
        # `a < b < (x := 3)`""", """        later = node.comparators[1:]
        if not self._binds(later):
            return self.generic_visit(node)
        # `a < b < (x := 3)`""")),
}
import tempfile
for k in ('R21-pack_integer-reordered-equal-ranges', 'R13-find_id_loc-while-to-for', 'R15-read_except-temp', 'R8-lint-loop-variables'):
    R.pop(k, None)          # placeholders / a rename that is not behaviour-preserving as written
names = sys.argv[1:] or sorted(R)
alarms = 0
for name in names:
    props, fn = R[name]
    top = tempfile.mkdtemp(prefix='supp-refactor-')
    try:
        D = os.path.join(top, 'repo')
        os.makedirs(D)
        for x in ('supp', 'tests'):
            shutil.copytree('/repo/' + x, os.path.join(D, x))
        os.chdir(D)
        try:
            fn()
        except (AssertionError, ValueError) as e:
            print('%-40s SKIP: the code no longer has the text this refactoring rewrites' % name)
            continue
        r = subprocess.run(['/venv/bin/python', '-m', 'pytest', '-q', '-p', 'no:cacheprovider', '--timeout=120'], capture_output=True, text=True)
        suite = (r.stdout.strip().splitlines() or ['?'])[-1]
        subprocess.run(['pkill', '-f', os.path.join(D, 'supp', 'server.py')])
        if re.search(r'\d+ (failed|error)', suite):
            print('%-40s SKIP: not behaviour-preserving (suite: %s)' % (name, suite))
            continue
        for p in props:
            r = subprocess.run(['/verif/check', p], capture_output=True, text=True, env=dict(os.environ, SUPP_REPO=D, SUPP_VERIF_NO_SELFTEST='1'), cwd='/verif')
            if r.returncode == 1:
                alarms += 1
            first = [l[:160] for l in r.stdout.splitlines() if l.startswith(('FAILED', 'UNDECIDED'))][:1]
            print('%-40s %s exit=%d %s %s' % (name, p, r.returncode, {0: 'quiet', 1: 'FALSE-ALARM', 2: 'undecided', 3: 'undecided'}.get(r.returncode, '?'), first))
    finally:
        os.chdir('/')
        shutil.rmtree(top, ignore_errors=True)
sys.exit(1 if alarms else 0)
