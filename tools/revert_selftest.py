#!/usr/bin/env python3
"""Regression self-test over the repaired defects: for every `fixed: property=<id> <commit> ...` line of known_findings.jsonl,
undo that one commit in a scratch worktree of /repo (git revert --no-commit; under $TMPDIR, removed afterwards), run the
property's check against it (SUPP_REPO) and expect exit 1 with a VIOLATION line: a repaired defect that returns is reported
again.  A revert that no longer applies cleanly (later commits rewrote the same lines) is reported as SKIP.
usage: tools/revert_selftest.py [Cxx ...] [--json out.json]"""
import json, os, re, subprocess, sys, tempfile
HERE = os.path.dirname(os.path.dirname(os.path.abspath(__file__)))


def sh(cmd, **kw):
    return subprocess.run(cmd, shell=True, capture_output=True, text=True, **kw)


# repairs whose revert alone no longer breaks the property, because a later repair covers the same defect from another side (each was
# reported when it was the only repair; the witness of its `fixed:` line was replayed on the reverted tree and holds)
SUPERSEDED = {
    '0bc61c7': 'since 4f1f087 a module that copied names from a one-request analysis of a star-import cycle counts as changed at the next '
               'request, so the entry module this repair stopped keeping is analysed again anyway (same as seeded/C09-ring-entry-module-kept)',
}


def main():
    args = [a for a in sys.argv[1:] if not a.startswith('--')]
    out = sys.argv[sys.argv.index('--json') + 1] if '--json' in sys.argv else None
    if out in args:
        args.remove(out)
    rows = []
    for l in open(os.path.join(HERE, 'known_findings.jsonl')):
        m = re.match(r'fixed: property=(C\d+) ([0-9a-f]{7,}) (.*)', l)
        if not m or (args and m.group(1) not in args):
            continue
        prop, commit, what = m.groups()
        d = tempfile.mkdtemp(prefix='supp-rev-')
        wt = os.path.join(d, 'wt')
        try:
            r = sh('git -C /repo worktree add --detach %s HEAD -q' % wt)
            if r.returncode:
                rows.append(dict(property=prop, commit=commit, result='SKIP', note=r.stderr.strip()[:200]))
                continue
            r = sh('git -C %s revert --no-commit %s' % (wt, commit))
            if r.returncode:
                rows.append(dict(property=prop, commit=commit, result='SKIP', note='revert does not apply cleanly any more'))
                print('%s %s SKIP (revert conflicts)' % (prop, commit))
                continue
            s = sh('cd %s && /venv/bin/python -m pytest -q -x -p no:cacheprovider --timeout=300 2>&1 | tail -1' % wt, timeout=900)
            sh("pkill -f '%s/supp/server.py'" % wt)      # a server started by tests/test_remote.py may not exit on its own on a broken tree
            r = sh('cd %s && ./check %s' % (HERE, prop), env=dict(os.environ, SUPP_REPO=wt), timeout=3600)
            viol = [x for x in r.stdout.splitlines() if x.startswith('VIOLATION')]
            ok = r.returncode == 1 and bool(viol)
            if not ok and r.returncode == 0 and commit in SUPERSEDED:
                rows.append(dict(property=prop, commit=commit, result='SKIP', note='superseded: ' + SUPERSEDED[commit]))
                print('%s %s SKIP (superseded: the property holds on the reverted tree)' % (prop, commit))
                continue
            rows.append(dict(property=prop, commit=commit, what=what[:160], result='caught' if ok else 'MISSED', exit=r.returncode,
                             violations=len(viol), suite=s.stdout.strip()[-60:]))
            print('%s %s %s exit=%d violations=%d suite=[%s] %s' % (prop, commit, 'CAUGHT' if ok else 'MISSED', r.returncode, len(viol),
                                                                     s.stdout.strip()[-40:], what[:70]))
        finally:
            sh('git -C /repo worktree remove --force %s' % wt)
            sh('rm -rf %s' % d)
    sh('git -C /repo worktree prune')
    if out:
        json.dump(rows, open(out, 'w'), indent=1)
    return 1 if any(r['result'] == 'MISSED' for r in rows) else 0


if __name__ == '__main__':
    sys.exit(main())
